#!/bin/bash
# confirm every round-5 seed not yet confirmed (log: /tmp/r5_confirm.log); retries absorb load-sensitive wall-clock tests
mkdir -p /tmp/confirm
for d in /tmp/seeded_out5/*; do id=$(basename $d)
  [ -f $d/meta.json ] && [ -s $d/patch.diff ] || continue
  grep -q "^$id: .*passing: 1304" /tmp/r5_confirm.log 2>/dev/null && continue
  for try in 1 2 3 4; do
    out=$(nice /verif/tools/confirm_seed.sh $d 2>&1 | tail -1)
    echo "$out (try $try)" >> /tmp/r5_confirm.log
    echo "$out" | grep -q "demo_clean=PASS demo_patched=FAIL.*passing: 1304" && break
    echo "$out" | grep -q "demo_clean=PASS demo_patched=FAIL" || break
  done
done
