module github.com/zmap/zcrypto/zvfixture

go 1.21
