// Package zvfixture holds one positive and one negative instance per rule engine of zverif.
// `zverif -selftest` loads it and requires exactly the verdicts in the function names:
// ...OK functions must be discharged, ...Bad functions must be reported.
package zvfixture

import (
	"crypto/ecdsa"
	"crypto/elliptic"
	"errors"
	"math/big"
	"sort"
	"sync"
)

type T struct{ f int }

var errBad = errors.New("bad")

func check(x *T) error {
	if x == nil {
		return errBad
	}
	return nil
}

// R-CUT: success only past check(x) == nil
func CutOK(x *T) (int, error) {
	if err := check(x); err != nil {
		return 0, err
	}
	return x.f, nil
}

func CutBad(x *T, skip bool) (int, error) {
	if !skip {
		if err := check(x); err != nil {
			return 0, err
		}
	}
	return 1, nil
}

// R-BOUNDS
func BoundsOK(b []byte) byte {
	if len(b) < 2 {
		return 0
	}
	return b[1]
}

func BoundsBad(b []byte) byte {
	if len(b) < 1 {
		return 0
	}
	return b[1]
}

func BoundsLoopOK(b []byte, n int) int {
	if len(b) < 2*n {
		return 0
	}
	s := 0
	out := make([]int, n)
	for range out {
		s += int(b[0])<<8 | int(b[1])
		b = b[2:]
	}
	return s
}

func BoundsLoopBad(b []byte, n int) int {
	if len(b) < n {
		return 0
	}
	s := 0
	out := make([]int, n)
	for range out {
		s += int(b[0])<<8 | int(b[1])
		b = b[2:]
	}
	return s
}

// R-LOOP, interprocedural: a decoder that hands its input back on failure
func takeOne(b []byte) ([]byte, error) {
	if len(b) == 0 || b[0] == 0xff {
		return b, errBad
	}
	return b[1:], nil
}

func takeOneVia(b []byte) ([]byte, error) { return takeOne(b) }

func LoopEchoOK(b []byte) (n int, err error) {
	for len(b) > 0 {
		b, err = takeOneVia(b)
		if err != nil {
			return n, err
		}
		n++
	}
	return n, nil
}

func LoopEchoBad(b []byte, lenient bool) (n int, err error) {
	for len(b) > 0 {
		b, err = takeOneVia(b)
		if err != nil {
			if lenient {
				continue
			}
			return n, err
		}
		n++
	}
	return n, nil
}

// R-LOOP
func LoopOK(b []byte) int {
	n := 0
	for len(b) > 0 {
		if b[0] == 0 {
			b = b[1:]
			continue
		}
		n++
		b = b[1:]
	}
	return n
}

func LoopBad(b []byte) int {
	n := 0
	for len(b) > 0 {
		if b[0] == 0 {
			continue
		}
		n++
		b = b[1:]
	}
	return n
}

// R-LOCK pairing
type S struct {
	mu sync.Mutex
	n  int
}

func (s *S) LockOK() int {
	s.mu.Lock()
	defer s.mu.Unlock()
	return s.n
}

func (s *S) LockBad(early bool) int {
	s.mu.Lock()
	if early {
		return -1
	}
	s.mu.Unlock()
	return s.n
}

// R-ORDER
func OrderOK(m map[string]bool) []string {
	var out []string
	for k := range m {
		out = append(out, k)
	}
	sort.Strings(out)
	return out
}

func OrderBad(m map[string]bool) []string {
	var out []string
	for k := range m {
		out = append(out, k)
	}
	sort.Slice(out, func(i, j int) bool { return len(out[i]) < len(out[j]) })
	return out
}

// R-FRESH
type rec struct{ b []byte }

func FreshOK(in [][]byte) []rec {
	var out []rec
	for _, x := range in {
		buf := make([]byte, 0, 8)
		buf = append(buf, x...)
		out = append(out, rec{buf})
	}
	return out
}

func FreshBad(in [][]byte) []rec {
	var out []rec
	buf := make([]byte, 0, 8)
	for _, x := range in {
		buf = append(buf[:0], x...)
		out = append(out, rec{buf})
	}
	return out
}

// R-PURE
func PureOK(b []byte) int {
	n := 0
	for _, x := range b {
		n += int(x)
	}
	return n
}

func PureBad(b []byte) int {
	if len(b) > 0 {
		b[0] = 0
	}
	return len(b)
}

// R-CHARSET
func SetWide(b byte) bool {
	return 'a' <= b && b <= 'z' || '0' <= b && b <= '9' || b == '-' || b == '\''
}

func SetNarrow(b byte, dash bool) bool {
	return 'a' <= b && b <= 'z' || (dash && b == '-')
}

func SetOther(b byte) bool {
	return 'a' <= b && b <= 'z' || b == '_'
}

// R-INIT
func AccBad(out *uint64, n []byte) {
	for i := 0; i < len(n); i++ {
		*out <<= 8
		*out |= uint64(n[i])
	}
}

func AccOK(out *uint64, n []byte) {
	*out = 0
	for i := 0; i < len(n); i++ {
		*out <<= 8
		*out |= uint64(n[i])
	}
}

// R-CURVES
func CurvesOK(k *ecdsa.PublicKey) (int, error) {
	switch k.Curve {
	case elliptic.P224(), elliptic.P256():
		return 256, nil
	case elliptic.P384():
		return 384, nil
	case elliptic.P521():
		return 512, nil
	}
	return 0, errors.New("unknown curve")
}

func CurvesBad(k *ecdsa.PublicKey) (int, error) {
	switch size := k.Curve.Params().BitSize; {
	case size <= 256:
		return 256, nil
	case size <= 384:
		return 384, nil
	case size <= 512:
		return 512, nil
	}
	return 0, errors.New("unknown curve")
}

// R-DEAD
type Opts struct {
	name string
	n    int
}

func (o Opts) FillBad() {
	if o.n == 0 {
		o.n = 7
	}
}

func (o *Opts) FillOK() {
	if o.n == 0 {
		o.n = 7
	}
}

func GuardBad(o Opts) int {
	name := o.name
	o.name = ""
	if o.name != "" {
		return len(name)
	}
	return use(o)
}

func GuardOK(o Opts) int {
	name := o.name
	o.name = ""
	if name != "" {
		return len(name)
	}
	return use(o)
}

func use(o Opts) int { return o.n }

// R-ALIAS (big.Int)
func BigCopyBad(dst, src *big.Int) { *dst = *src }
func BigCopyOK(dst, src *big.Int)  { dst.Set(src) }

// R-SIGN
func digits(dst []byte, v int) []byte { return append(dst, byte('0'+v/10%10), byte('0'+v%10)) }

func SignOK(dst []byte, offset int) []byte {
	m := offset / 60
	if m < 0 {
		m = -m
	}
	dst = digits(dst, m/60)
	return digits(dst, m%60)
}

func SignBad(dst []byte, offset int) []byte {
	m := offset / 60
	h, r := m/60, m%60
	if h < 0 {
		h = -h
	}
	dst = digits(dst, h)
	return digits(dst, r)
}

// R-DEAD: self-comparison and cross-field append
type lists struct{ a, b []int }

func SelfCmpBad(x, y *lists) bool { return len(x.a) != len(x.a) || len(x.b) != len(y.b) }
func SelfCmpOK(x, y *lists) bool  { return len(x.a) != len(y.a) || len(x.b) != len(y.b) }
func CrossBad(x *lists, v []int)  { x.b = append(x.a, v...) }
func CrossOK(x *lists, v []int)   { x.b = append(x.b, v...) }

// R-TABLE (partial copy): a value rebuilt from another of its type with a field left out
type ext struct {
	Id       int
	Critical bool
	Value    []byte
}

func CopyBad(in []ext) (out []ext) {
	for _, e := range in {
		out = append(out, ext{Id: e.Id, Value: append([]byte(nil), e.Value...)})
	}
	return
}

func CopyOK(in []ext) (out []ext) {
	for _, e := range in {
		out = append(out, ext{Id: e.Id, Critical: e.Critical, Value: append([]byte(nil), e.Value...)})
	}
	return
}

// R-SCAN: a membership scan that skips index 0
func ScanBad(xs []int, v int) bool {
	for i := len(xs) - 1; i > 0; i-- {
		if xs[i] == v {
			return true
		}
	}
	return false
}

func ScanOK(xs []int, v int) bool {
	for i := len(xs) - 1; i >= 0; i-- {
		if xs[i] == v {
			return true
		}
	}
	return false
}
