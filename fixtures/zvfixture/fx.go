// Package zvfixture holds one positive and one negative instance per rule engine of zverif.
// `zverif -selftest` loads it and requires exactly the verdicts in the function names:
// ...OK functions must be discharged, ...Bad functions must be reported.
package zvfixture

import (
	"errors"
	"sort"
	"sync"
)

type T struct{ f int }

var errBad = errors.New("bad")

func check(x *T) error {
	if x == nil {
		return errBad
	}
	return nil
}

// R-CUT: success only past check(x) == nil
func CutOK(x *T) (int, error) {
	if err := check(x); err != nil {
		return 0, err
	}
	return x.f, nil
}

func CutBad(x *T, skip bool) (int, error) {
	if !skip {
		if err := check(x); err != nil {
			return 0, err
		}
	}
	return 1, nil
}

// R-BOUNDS
func BoundsOK(b []byte) byte {
	if len(b) < 2 {
		return 0
	}
	return b[1]
}

func BoundsBad(b []byte) byte {
	if len(b) < 1 {
		return 0
	}
	return b[1]
}

func BoundsLoopOK(b []byte, n int) int {
	if len(b) < 2*n {
		return 0
	}
	s := 0
	out := make([]int, n)
	for range out {
		s += int(b[0])<<8 | int(b[1])
		b = b[2:]
	}
	return s
}

func BoundsLoopBad(b []byte, n int) int {
	if len(b) < n {
		return 0
	}
	s := 0
	out := make([]int, n)
	for range out {
		s += int(b[0])<<8 | int(b[1])
		b = b[2:]
	}
	return s
}

// R-LOOP
func LoopOK(b []byte) int {
	n := 0
	for len(b) > 0 {
		if b[0] == 0 {
			b = b[1:]
			continue
		}
		n++
		b = b[1:]
	}
	return n
}

func LoopBad(b []byte) int {
	n := 0
	for len(b) > 0 {
		if b[0] == 0 {
			continue
		}
		n++
		b = b[1:]
	}
	return n
}

// R-LOCK pairing
type S struct {
	mu sync.Mutex
	n  int
}

func (s *S) LockOK() int {
	s.mu.Lock()
	defer s.mu.Unlock()
	return s.n
}

func (s *S) LockBad(early bool) int {
	s.mu.Lock()
	if early {
		return -1
	}
	s.mu.Unlock()
	return s.n
}

// R-ORDER
func OrderOK(m map[string]bool) []string {
	var out []string
	for k := range m {
		out = append(out, k)
	}
	sort.Strings(out)
	return out
}

func OrderBad(m map[string]bool) []string {
	var out []string
	for k := range m {
		out = append(out, k)
	}
	sort.Slice(out, func(i, j int) bool { return len(out[i]) < len(out[j]) })
	return out
}
